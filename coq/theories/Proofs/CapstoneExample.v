(* Non-vacuity of the capstone hypotheses: three one-dimensional samples 0, 1, 3 with classes
   0, 0, 1 under the manhattan code term.  The pairwise distances 1, 3, 2 are positive, distinct
   and below fmax = 100, so every premise of C01_capstone_manhattan and C04_capstone_manhattan
   holds. *)
From Coq Require Import Reals List Arith Lia Lra.
From OPF Require Import Base.NumOps Model.Sup Spec.MetricSpec Gen.Metrics_gen Model.MetricEval Proofs.ClosedForms.
From OPF Require Import Proofs.Capstone Proofs.CapstoneInstances.
Import ListNotations.
Open Scope R_scope.

Definition cx_feat (p : nat) : list R := nth p [[0]; [1]; [3]] [].
Definition cx_labels : list nat := [0; 0; 1]%nat.

Lemma cx_manhattan1 (a b : R) : metric_value ir_manhattan [a] [b] = Rabs (a - b).
Proof.
  rewrite closed_form_manhattan by reflexivity.
  unfold sp_manhattan, sum2, sum. cbn [map2 fold_right]. ring.
Qed.

Lemma cx_w p q : (p < 3)%nat -> (q < 3)%nat ->
  metric_value ir_manhattan (cx_feat p) (cx_feat q)
  = nth q (nth p [[0; 1; 3]; [1; 0; 2]; [3; 2; 0]] []) 0.
Proof.
  intros Hp Hq.
  destruct p as [|[|[|p]]]; [| | |lia]; (destruct q as [|[|[|q]]]; [| | |lia]);
    unfold cx_feat; cbn [nth]; rewrite cx_manhattan1;
    first [rewrite Rabs_pos_eq by lra | rewrite Rabs_left1 by lra]; cbn [nth]; lra.
Qed.

Theorem cx_premises :
  let n := length cx_labels in
  let w p q := metric_value ir_manhattan (cx_feat p) (cx_feat q) in
  (1 <= 1)%nat /\ (forall p, (p < n)%nat -> length (cx_feat p) = 1%nat) /\
  (exists a b, (a < n)%nat /\ (b < n)%nat /\ nth a cx_labels 0%nat <> nth b cx_labels 0%nat) /\
  (forall p q, (p < n)%nat -> (q < n)%nat -> p <> q -> 0 < w p q < 100) /\
  (forall a b c d, (a < n)%nat -> (b < n)%nat -> (c < n)%nat -> (d < n)%nat -> a <> b -> c <> d ->
     w a b = w c d -> (a = c /\ b = d) \/ (a = d /\ b = c)) /\
  0 < 100.
Proof.
  intros n w. change n with 3%nat. unfold w.
  split; [lia|]. split.
  { intros p Hp. destruct p as [|[|[|p]]]; [reflexivity|reflexivity|reflexivity|lia]. }
  split. { exists 0%nat, 2%nat. cbn. repeat split; lia. }
  split.
  { intros p q Hp Hq Hpq. rewrite (cx_w p q Hp Hq).
    destruct p as [|[|[|p]]]; [| | |lia]; (destruct q as [|[|[|q]]]; [| | |lia]);
      cbn [nth]; try lra; lia. }
  split; [|lra].
  intros a b c d Ha Hb Hc Hd Hab Hcd. rewrite (cx_w a b Ha Hb), (cx_w c d Hc Hd).
  destruct a as [|[|[|a]]]; [| | |lia]; (destruct b as [|[|[|b]]]; [| | |lia]);
    try lia;
    (destruct c as [|[|[|c]]]; [| | |lia]); (destruct d as [|[|[|d]]]; [| | |lia]);
    try lia; cbn [nth]; intro E; try (exfalso; lra); lia.
Qed.

(* ... and so the conclusions hold of this run: every sample keeps its class, the three training
   rows are classified correctly, and the run is an optimum-path forest *)
Theorem cx_result :
  let n := length cx_labels in
  let w p q := metric_value ir_manhattan (cx_feat p) (cx_feat q) in
  let nd := sup_fit Rltb 0 100 cx_labels w in
  opf_forest_R n w cx_labels nd /\
  (forall q, (q < n)%nat -> nth q (n_plabel nd) 0%nat = nth q cx_labels 0%nat) /\
  (forall t, (t < n)%nat ->
     fst (predict_one Rltb 0 nd (fun k => metric_value ir_manhattan (cx_feat k) (cx_feat t)))
     = nth t cx_labels 0%nat).
Proof.
  intros n w nd. destruct cx_premises as (Hd & Hlen & Hcls & Hrange & Hdist & Hpos).
  split.
  - refine (proj1 (cap_code_manhattan cx_feat cx_labels 1 100 Hd Hlen Hcls _ Hpos)).
    intros p q Hp Hq Hpq. exact (proj2 (Hrange p q Hp Hq Hpq)).
  - exact (cap_tiefree_manhattan cx_feat cx_labels 1 100 Hd Hlen Hcls Hrange Hdist).
Qed.
