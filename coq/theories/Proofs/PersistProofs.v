From Coq Require Import String List.
From OPF Require Import Model.Persist.
Import ListNotations.

Section P.
  Variable V file In_ Out_ : Type.
  Variable enc : dict V -> file.
  Variable dec : file -> option (dict V).
  Hypothesis roundtrip : forall m, dec (enc m) = Some m.
  Variable predict_of_state : (string -> option V) -> In_ -> Out_.

  Lemma get_app (a b : dict V) k :
    get V (a ++ b) k = match get V a k with Some v => Some v | None => get V b k end.
  Proof. induction a as [|[k' v] t IH]; simpl; auto. destruct (String.eqb k k'); auto. Qed.

  Lemma get_none_notin (m : dict V) k : get V m k = None <-> ~ In k (keys V m).
  Proof.
    induction m as [|[k' v] t IH]; simpl; [tauto|].
    destruct (String.eqb k k') eqn:E.
    - apply String.eqb_eq in E; subst. split; [discriminate|]. intros H; exfalso; apply H; auto.
    - apply String.eqb_neq in E. rewrite IH. split; intros H; [intros [A|A]; [congruence|tauto]|tauto].
  Qed.

  (* loading a saved object into a fresh object whose attributes all exist in the saved one
     gives back exactly the saved attribute map *)
  Theorem load_save_same_kind (fresh m : dict V) :
    (forall k, In k (keys V fresh) -> In k (keys V m)) ->
    exists m', load V file dec fresh (fst (save V file enc m)) = Some m' /\
               forall k, get V m' k = get V m k.
  Proof.
    intros Hsub. unfold load, save; simpl. rewrite roundtrip. eexists; split; [reflexivity|].
    intros k. unfold update. rewrite get_app. destruct (get V m k) eqn:G; auto.
    apply get_none_notin. intros Hin. apply Hsub in Hin. apply get_none_notin in G. tauto.
  Qed.

  Theorem save_leaves_original (m : dict V) : snd (save V file enc m) = m.
  Proof. reflexivity. Qed.

  (* equal attribute maps give equal predictions on every input *)
  Theorem predict_depends_on_state_only (m1 m2 : dict V) :
    (forall k, get V m1 k = get V m2 k) ->
    forall x, (forall f g, (forall k, f k = g k) -> predict_of_state f x = predict_of_state g x) ->
    predict V In_ Out_ predict_of_state m1 x = predict V In_ Out_ predict_of_state m2 x.
  Proof. intros H x Hext. unfold predict. apply Hext. exact H. Qed.

  Corollary loaded_model_predicts_identically (fresh m : dict V) :
    (forall k, In k (keys V fresh) -> In k (keys V m)) ->
    exists m', load V file dec fresh (fst (save V file enc m)) = Some m' /\
      forall x, (forall f g, (forall k, f k = g k) -> predict_of_state f x = predict_of_state g x) ->
      predict V In_ Out_ predict_of_state m' x = predict V In_ Out_ predict_of_state m x.
  Proof.
    intros Hsub. destruct (load_save_same_kind fresh m Hsub) as [m' [Hl Hg]].
    exists m'. split; auto. intros x Hext. apply predict_depends_on_state_only; auto.
  Qed.
End P.
