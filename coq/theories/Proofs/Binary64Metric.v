(* The metric-level rounding theorems (C06 quantitative bounds, C08 float-level axioms) instantiated at binary64:
   [rnd_rel u64 rnd64x], [rounding rnd64x], [rnd_odd rnd64]. *)
From Coq Require Import Reals QArith String List Bool ZArith Lia Lra.
From Flocq Require Import Core.
From OPF Require Import Spec.MetricSpec Model.MetricIR Gen.Metrics_gen Model.MetricRnd Model.MetricEval
     Model.MetricSym Model.MetricRdepth Model.MetricRdepthQ Base.NumOpsRnd
     Proofs.RoundingBounds Proofs.RdepthSound Proofs.RdepthTable Proofs.RdepthWitness
     Proofs.RoundingBoundsQ Proofs.RdepthQSound Proofs.RdepthQTable
     Proofs.RobustSign Proofs.RobustSignTable Proofs.RobustSignNeg
     Proofs.FloatSym Proofs.FloatZero Proofs.FloatTable Proofs.FloatNonneg
     Model.Binary64 Model.Binary64Metric Proofs.Binary64.
Import ListNotations.
Open Scope string_scope.
Open Scope R_scope.

Local Instance prec53 : Prec_gt_0 53 := eq_refl.

Lemma u64_range' : 0 <= u64 < 1.
Proof. pose proof u64_range. lra. Qed.

(* ---------------- C06 ---------------- *)
Lemma b64_bound_of m sp k : rounding_bound m sp k -> rounding_bound_at u64 rnd64x m sp k.
Proof. intros H x y. exact (H u64 rnd64x u64_range' rnd64x_rel x y). Qed.

Lemma b64_bound_shift_of c m sp p q :
  rounding_bound_shift c m sp p q -> rounding_bound_shift_at u64 rnd64x c m sp p q.
Proof. intros H x y. exact (H u64 rnd64x u64_range' rnd64x_rel x y). Qed.

Lemma b64_rdepth_sound (m : metric_ir) (n k : nat) :
  rdepth m n = Some k ->
  forall x y, length x = n -> length y = n -> (1 <= n)%nat ->
  exists fl, metric_rnd rnd64x m x y = Some fl
             /\ within u64 k (metric_value m x y) fl
             /\ Rabs (fl - metric_value m x y) <= ((1 + u64) ^ k - 1) * Rabs (metric_value m x y).
Proof. intros H. exact (rdepth_sound m n k H u64 rnd64x u64_range' rnd64x_rel). Qed.

Lemma b64_rdepthq_sound (c : cls) (m : metric_ir) (n p q : nat) :
  rdepthq_in c m n = Some (p, q) ->
  forall x y, length x = n -> in_dom c x y ->
  exists fl, metric_rnd rnd64x m x y = Some fl
             /\ within2 u64 p q (metric_exact_at rnd64x m x y) fl
             /\ Rabs (fl - metric_exact_at rnd64x m x y)
                <= (up_f u64 p q - 1) * Rabs (metric_exact_at rnd64x m x y).
Proof. intros H. exact (rdepthq_in_sound c m n p q H u64 rnd64x u64_range' rnd64x_rel). Qed.

Lemma b64_table :
     rounding_bound_at u64 rnd64x ir_squared_euclidean sp_squared_euclidean (fun n => (n + 2)%nat)
  /\ rounding_bound_at u64 rnd64x ir_manhattan sp_manhattan (fun n => n)
  /\ rounding_bound_at u64 rnd64x ir_euclidean sp_euclidean (fun n => ((n + 3) / 2 + 1)%nat)
  /\ rounding_bound_at u64 rnd64x ir_average_euclidean sp_average_euclidean (fun n => ((n + 4) / 2 + 1)%nat)
  /\ rounding_bound_at u64 rnd64x ir_chebyshev sp_chebyshev (fun _ => 1%nat)
  /\ rounding_bound_at u64 rnd64x ir_hamming sp_hamming (fun _ => 0%nat)
  /\ rounding_bound_at u64 rnd64x ir_gower sp_gower (fun n => (n + 1)%nat)
  /\ rounding_bound_at u64 rnd64x ir_non_intersection sp_non_intersection (fun n => (n + 1)%nat).
Proof.
  repeat split; apply b64_bound_of;
    [exact rounding_squared_euclidean | exact rounding_manhattan | exact rounding_euclidean
    | exact rounding_average_euclidean | exact rounding_chebyshev | exact rounding_hamming
    | exact rounding_gower | exact rounding_non_intersection].
Qed.

Lemma b64_shift_table :
     rounding_bound_shift_at u64 rnd64x NonNeg ir_additive_symmetric sp_additive_symmetric (fun n => (n + 6)%nat) (fun _ => 1%nat)
  /\ rounding_bound_shift_at u64 rnd64x NonNeg ir_bray_curtis sp_bray_curtis (fun n => (n + 1)%nat) (fun n => n)
  /\ rounding_bound_shift_at u64 rnd64x NonNeg ir_canberra sp_canberra (fun n => (n + 1)%nat) (fun _ => 1%nat)
  /\ rounding_bound_shift_at u64 rnd64x NonNeg ir_chi_squared sp_chi_squared (fun n => (n + 4)%nat) (fun _ => 1%nat)
  /\ rounding_bound_shift_at u64 rnd64x NonNeg ir_clark sp_clark (fun n => ((n + 5) / 2 + 1)%nat) (fun _ => 1%nat)
  /\ rounding_bound_shift_at u64 rnd64x NonNeg ir_divergence sp_divergence (fun n => (n + 4)%nat) (fun _ => 3%nat)
  /\ rounding_bound_shift_at u64 rnd64x NonNeg ir_kulczynski sp_kulczynski (fun n => (n + 1)%nat) (fun n => (n - 1)%nat)
  /\ rounding_bound_shift_at u64 rnd64x NonNeg ir_max_symmetric sp_max_symmetric (fun n => (n + 3)%nat) (fun _ => 0%nat)
  /\ rounding_bound_shift_at u64 rnd64x NonNeg ir_mean_censored_euclidean sp_mean_censored_euclidean (fun n => ((n + 4) / 2 + 1)%nat) (fun _ => 0%nat)
  /\ rounding_bound_shift_at u64 rnd64x NonNeg ir_min_symmetric sp_min_symmetric (fun n => (n + 3)%nat) (fun _ => 0%nat)
  /\ rounding_bound_shift_at u64 rnd64x NonNeg ir_neyman sp_neyman (fun n => (n + 3)%nat) (fun _ => 0%nat)
  /\ rounding_bound_shift_at u64 rnd64x NonNeg ir_pearson sp_pearson (fun n => (n + 3)%nat) (fun _ => 0%nat)
  /\ rounding_bound_shift_at u64 rnd64x NonNeg ir_sangvi sp_sangvi (fun n => (n + 4)%nat) (fun _ => 1%nat)
  /\ rounding_bound_shift_at u64 rnd64x NonNeg ir_soergel sp_soergel (fun n => (n + 1)%nat) (fun n => (n - 1)%nat)
  /\ rounding_bound_shift_at u64 rnd64x NonNeg ir_squared sp_squared (fun n => (n + 3)%nat) (fun _ => 1%nat)
  /\ rounding_bound_shift_at u64 rnd64x NonNeg ir_vicis_symmetric1 sp_vicis_symmetric1 (fun n => (n + 3)%nat) (fun _ => 1%nat)
  /\ rounding_bound_shift_at u64 rnd64x NonNeg ir_vicis_symmetric2 sp_vicis_symmetric2 (fun n => (n + 3)%nat) (fun _ => 0%nat)
  /\ rounding_bound_shift_at u64 rnd64x NonNeg ir_vicis_symmetric3 sp_vicis_symmetric3 (fun n => (n + 3)%nat) (fun _ => 0%nat)
  /\ rounding_bound_shift_at u64 rnd64x NonNeg ir_vicis_wave_hedges sp_vicis_wave_hedges (fun n => (n + 1)%nat) (fun _ => 0%nat).
Proof.
  pose proof rounding_shift_all as H.
  do 18 (destruct H as [H0 H]; split; [apply b64_bound_shift_of; exact H0 | clear H0]).
  apply b64_bound_shift_of; exact H.
Qed.

(* 1/10 is not a binary64 number: the rounding is not the identity *)
Lemma tenth_not_format : rnd64x (1 / 10) <> 1 / 10.
Proof.
  intros E.
  assert (G : generic_format radix2 (FLX_exp 53) (1 / 10)).
  { rewrite <- E. apply generic_format_round; auto with typeclass_instances. }
  assert (M : mag radix2 (1 / 10) = (-3)%Z :> Z).
  { apply mag_unique. rewrite Rabs_pos_eq by lra.
    change (bpow radix2 (-3 - 1)) with (/ 16). change (bpow radix2 (-3)) with (/ 8). lra. }
  unfold generic_format, cexp, FLX_exp in G. rewrite M in G.
  unfold F2R in G. cbn [Fnum Fexp] in G.
  set (z := Ztrunc (scaled_mantissa radix2 (fun e : Z => (e - 53)%Z) (1 / 10))) in G.
  change (bpow radix2 (-3 - 53)) with (/ IZR (2 ^ 56)) in G.
  assert (P : 0 < IZR (2 ^ 56)) by (apply IZR_lt; lia).
  assert (Q : IZR (2 ^ 56) = IZR (10 * z)).
  { rewrite mult_IZR. apply (Rmult_eq_compat_r (10 * IZR (2 ^ 56))) in G. field_simplify in G; lra. }
  apply eq_IZR in Q. lia.
Qed.

Lemma tenth_rel : exists d, Rabs d <= u64 /\ rnd64x (1 / 10) = 1 / 10 * (1 + d) /\ d <> 0.
Proof.
  destruct (rnd64x_rel (1 / 10)) as [d [Hd E]]. exists d. split; [exact Hd|]. split; [exact E|].
  intros ->. apply tenth_not_format. rewrite E. ring.
Qed.

(* ---------------- C08 ---------------- *)
Lemma b64_sym_sound (m : metric_ir) :
  swap_sym m = true -> forall x y, length x = length y -> metric_rnd rnd64 m x y = metric_rnd rnd64 m y x.
Proof. intros H. exact (swap_sym_sound m H rnd64 rnd64_odd). Qed.

Lemma b64x_sym_sound (m : metric_ir) :
  swap_sym m = true -> forall x y, length x = length y -> metric_rnd rnd64x m x y = metric_rnd rnd64x m y x.
Proof. intros H. exact (swap_sym_sound m H rnd64x rnd64x_odd). Qed.

Lemma b64_sym_all n : In n float_sym_accepted ->
  exists m, lookup_ir n all_metrics_ir = Some m
            /\ forall x y, length x = length y -> metric_rnd rnd64 m x y = metric_rnd rnd64 m y x.
Proof.
  intros H. destruct (float_sym_all n H) as [m [L S]]. exists m. split; [exact L|]. exact (S rnd64 rnd64_odd).
Qed.

Lemma b64_zero_sound (c : cls) (m : metric_ir) :
  zero_self c m = true ->
  forall x, (1 <= length x)%nat -> Forall (in_cls c) x -> metric_rnd rnd64x m x x = Some 0.
Proof. intros H. exact (zero_self_sound c m H rnd64x rnd64x_rounding). Qed.

Lemma b64_zero_one_sound (c : cls) (m : metric_ir) :
  zero_self_one c m = true ->
  forall x, (1 <= length x)%nat -> Forall (in_cls c) x -> metric_rnd rnd64x m x x = Some 0.
Proof. intros H. exact (zero_self_one_sound c m H rnd64x rnd64x_rounding rnd64x_one). Qed.

Lemma b64_zero_one_all nc : In nc float_zero_one_accepted ->
  exists m, lookup_ir (fst nc) all_metrics_ir = Some m
            /\ forall x, (1 <= length x)%nat -> Forall (in_cls (snd nc)) x -> metric_rnd rnd64x m x x = Some 0.
Proof.
  intros H. destruct (float_zero_one_all nc H) as [m [L S]]. exists m. split; [exact L|].
  exact (S rnd64x rnd64x_rounding rnd64x_one).
Qed.

Lemma b64_robust_sound (c : cls) (m : metric_ir) :
  robust_check c m = true ->
  forall x y, length x = length y -> (1 <= length x)%nat -> Forall (in_cls c) x -> Forall (in_cls c) y ->
  metric_rnd rnd64x m x y <> None
  /\ exists c' r, robust_class c m = Some c' /\ metric_rnd rnd64x m x y = Some r /\ in_cls c' r.
Proof. intros H. exact (robust_check_sound c m H rnd64x rnd64x_rounding). Qed.

Lemma b64_nonneg_all nc : In nc float_nonneg_list ->
  exists m, lookup_ir (fst nc) all_metrics_ir = Some m /\
  forall x y, length x = length y -> (1 <= length x)%nat ->
              Forall (in_cls (snd nc)) x -> Forall (in_cls (snd nc)) y ->
  exists r, metric_rnd rnd64x m x y = Some r /\ 0 <= r.
Proof.
  intros H. destruct (float_nonneg_all nc H) as [m [L S]]. exists m. split; [exact L|].
  exact (S rnd64x rnd64x_rounding).
Qed.

(* computed: manhattan([1; 2], [3; 5]) = 5 in binary64 arithmetic (all intermediate values are small integers) *)
Lemma b64_manhattan_example :
  metric_rnd rnd64 ir_manhattan [1; 2] [3; 5] = Some 5 /\ metric_rnd rnd64 ir_manhattan [3; 5] [1; 2] = Some 5.
Proof.
  split.
  - ev_open ir_manhattan. ev_step.
    replace (1 - 3) with (IZR (-2)) by (simpl; lra). replace (2 - 5) with (IZR (-3)) by (simpl; lra).
    rewrite !rnd64_int by lia.
    rewrite (Rabs_left (-2)), (Rabs_left (-3)) by lra.
    replace (- -2 + - -3) with (IZR 5) by (simpl; lra). rewrite rnd64_int by lia. reflexivity.
  - ev_open ir_manhattan. ev_step.
    replace (3 - 1) with (IZR 2) by (simpl; lra). replace (5 - 2) with (IZR 3) by (simpl; lra).
    rewrite !rnd64_int by lia.
    rewrite (Rabs_right 2), (Rabs_right 3) by lra.
    replace (2 + 3) with (IZR 5) by (simpl; lra). rewrite rnd64_int by lia. reflexivity.
Qed.

Lemma b64_sym_nonvacuous :
  swap_sym ir_manhattan = true /\ swap_sym ir_hassanat = true /\ rnd_odd rnd64 /\
  length [1; 2] = length [3; 5] /\
  metric_rnd rnd64 ir_manhattan [1; 2] [3; 5] = Some 5 /\ metric_rnd rnd64 ir_manhattan [3; 5] [1; 2] = Some 5 /\
  metric_rnd rnd64 ir_euclidean [1 / 10; 2] [3; 1 / 3] = metric_rnd rnd64 ir_euclidean [3; 1 / 3] [1 / 10; 2].
Proof.
  split; [vm_compute; reflexivity|]. split; [vm_compute; reflexivity|]. split; [exact rnd64_odd|].
  split; [reflexivity|]. split; [exact (proj1 b64_manhattan_example)|].
  split; [exact (proj2 b64_manhattan_example)|].
  apply b64_sym_sound; [vm_compute; reflexivity | reflexivity].
Qed.

Lemma b64_zero_nonvacuous :
  zero_self NonNeg ir_canberra = true /\ zero_self_one Any ir_lorentzian = true
  /\ (1 <= length [0; 1 / 10])%nat /\ Forall (in_cls NonNeg) [0; 1 / 10] /\ Forall (in_cls Any) [-3; 1 / 10]
  /\ metric_rnd rnd64x ir_canberra [0; 1 / 10] [0; 1 / 10] = Some 0
  /\ metric_rnd rnd64x ir_lorentzian [-3; 1 / 10] [-3; 1 / 10] = Some 0
  /\ rnd64x (1 / 10) <> 1 / 10.
Proof.
  assert (H1 : zero_self NonNeg ir_canberra = true) by (vm_compute; reflexivity).
  assert (H2 : zero_self_one Any ir_lorentzian = true) by (vm_compute; reflexivity).
  assert (D1 : Forall (in_cls NonNeg) [0; 1 / 10]) by (repeat constructor; cbn; lra).
  assert (D2 : Forall (in_cls Any) [-3; 1 / 10]) by (repeat constructor).
  split; [exact H1|]. split; [exact H2|]. split; [cbn; lia|]. split; [exact D1|]. split; [exact D2|].
  split; [apply (b64_zero_sound NonNeg _ H1); [cbn; lia | exact D1]|].
  split; [apply (b64_zero_one_sound Any _ H2); [cbn; lia | exact D2]|].
  exact tenth_not_format.
Qed.

Lemma b64_robust_nonvacuous :
  robust_check Pos ir_canberra = true /\ Forall (in_cls Pos) [1 / 10; 2] /\ Forall (in_cls Pos) [3; 1 / 3]
  /\ exists r, metric_rnd rnd64x ir_canberra [1 / 10; 2] [3; 1 / 3] = Some r.
Proof.
  assert (H1 : robust_check Pos ir_canberra = true) by (vm_compute; reflexivity).
  assert (D1 : Forall (in_cls Pos) [1 / 10; 2]) by (repeat constructor; cbn; lra).
  assert (D2 : Forall (in_cls Pos) [3; 1 / 3]) by (repeat constructor; cbn; lra).
  split; [exact H1|]. split; [exact D1|]. split; [exact D2|].
  destruct (b64_robust_sound Pos _ H1 [1 / 10; 2] [3; 1 / 3] eq_refl ltac:(cbn; lia) D1 D2) as [_ [c' [r [_ [E _]]]]].
  exists r. exact E.
Qed.

(* C06 non-vacuity: the bound for manhattan on a pair with non-representable entries *)
Lemma b64_bound_nonvacuous :
  exists fl, metric_rnd rnd64x ir_manhattan [1 / 10; 2] [3; 1 / 3] = Some fl
    /\ Rabs (fl - sp_manhattan [1 / 10; 2] [3; 1 / 3]) <= ((1 + u64) ^ 2 - 1) * sp_manhattan [1 / 10; 2] [3; 1 / 3]
    /\ sp_manhattan [1 / 10; 2] [3; 1 / 3] = 137 / 30.
Proof.
  destruct b64_table as (_ & H & _).
  destruct (H [1 / 10; 2] [3; 1 / 3] eq_refl ltac:(cbn; lia)) as [fl [E [_ B]]].
  exists fl. split; [exact E|]. split; [exact B|].
  unfold sp_manhattan, sum2, sum. cbn [map2 map fold_right].
  rewrite (Rabs_left (1 / 10 - 3)), (Rabs_right (2 - 1 / 3)) by lra. lra.
Qed.
