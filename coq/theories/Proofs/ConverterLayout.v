(* C18: the three converters decode the LibOPF layout, and hand identical rows to their writers. *)
From Coq Require Import List Arith ZArith Lia.
From OPF Require Import Model.Stream Model.Converter Proofs.StreamPerm.
Import ListNotations.

Lemma firstn_skipn_exact {T} (l1 l2 : list T) k : length l1 = k ->
  firstn k (l1 ++ l2) = l1 /\ skipn k (l1 ++ l2) = l2.
Proof.
  revert k; induction l1 as [|x l1 IH]; intros k H; simpl in H; subst k; simpl; [auto|].
  destruct (IH (length l1) eq_refl) as [E1 E2]. now rewrite E1, E2.
Qed.

Lemma unpack_exact (l1 l2 : list Z) k : length l1 = k -> unpack k (l1 ++ l2) = Some (l1, l2).
Proof.
  intros H. unfold unpack. rewrite app_length.
  destruct (Nat.ltb_spec (length l1 + length l2) k); [lia|].
  destruct (firstn_skipn_exact l1 l2 k H) as [-> ->]. reflexivity.
Qed.

Lemma read_loop_encode {T} (mk : list Z -> T) nf (ss : list sample) extra :
  Forall (fun s => length (sfeat s) = nf) ss ->
  read_loop mk (length ss) (2 + nf) (flat_map encode_sample ss ++ extra)
  = Some (map (fun s => mk (encode_sample s)) ss).
Proof.
  induction ss as [|s ss IH]; intros H; [reflexivity|].
  inversion H as [|? ? Hs Hss]; subst.
  cbn [length flat_map read_loop map]. rewrite <- app_assoc.
  rewrite unpack_exact by (unfold encode_sample; simpl; lia).
  rewrite IH by assumption. reflexivity.
Qed.

Lemma read_loop_map {T U} (mk : list Z -> T) (g : T -> U) n k ws :
  read_loop (fun d => g (mk d)) n k ws = option_map (map g) (read_loop mk n k ws).
Proof.
  revert ws; induction n as [|n IH]; intros ws; [reflexivity|].
  cbn [read_loop]. destruct (unpack k ws) as [[data rest]|]; [|reflexivity].
  rewrite IH. destruct (read_loop mk n k rest); reflexivity.
Qed.

Lemma load_json_row_mk data :
  [jid (mk_json data); jlabel (mk_json data)] ++ jfeatures (mk_json data) = mk_tuple data.
Proof. reflexivity. Qed.

(* the three converters hand identical row lists to their writers / the json loader *)
Lemma three_formats_agree (ws : list Z) :
  rows_csv ws = rows_txt ws /\ rows_json ws = rows_txt ws.
Proof.
  split; [reflexivity|].
  unfold rows_json, rows_txt, opf2json_data, opf2txt_samples.
  destruct (unpack 3 ws) as [[hd rest]|]; [|reflexivity].
  cbv zeta. unfold load_json_rows.
  rewrite <- (read_loop_map mk_json (fun d => [jid d; jlabel d] ++ jfeatures d)).
  reflexivity.
Qed.

(* decoding the LibOPF layout gives back every sample: same id, label - 1, same feature words;
   trailing bytes after the last record are ignored *)
Lemma dat_layout_roundtrip (ds : dataset) (extra : list Z) :
  wf_dataset ds -> rows_txt (encode_dat ds ++ extra) = Some (rows_of ds).
Proof.
  intros Hwf. unfold rows_txt, opf2txt_samples, encode_dat.
  rewrite <- app_assoc.
  rewrite (unpack_exact [Z.of_nat (length (ds_samples ds)); ds_classes ds; Z.of_nat (ds_nfeat ds)]) by reflexivity.
  cbn [nth]. rewrite !Nat2Z.id.
  rewrite (read_loop_encode mk_tuple (ds_nfeat ds)) by exact Hwf.
  reflexivity.
Qed.

Lemma dat_layout_roundtrip_all (ds : dataset) (extra : list Z) :
  wf_dataset ds ->
  rows_txt (encode_dat ds ++ extra) = Some (rows_of ds) /\
  rows_csv (encode_dat ds ++ extra) = Some (rows_of ds) /\
  rows_json (encode_dat ds ++ extra) = Some (rows_of ds).
Proof.
  intros Hwf. destruct (three_formats_agree (encode_dat ds ++ extra)) as [E1 E2].
  rewrite E1, E2. pose proof (dat_layout_roundtrip ds extra Hwf). auto.
Qed.

(* convert, load, parse: features and shifted labels of every sample, in order *)
Lemma labels_of_rows ds : labels_of (rows_of ds) = map (fun s => (slabel s - 1)%Z) (ds_samples ds).
Proof. unfold labels_of, rows_of. rewrite map_map. reflexivity. Qed.

Lemma features_of_rows ds : features_of (rows_of ds) = map sfeat (ds_samples ds).
Proof. unfold features_of, rows_of. rewrite map_map. reflexivity. Qed.

Definition bind {S T} (o : option S) (f : S -> option T) : option T :=
  match o with Some x => f x | None => None end.

Lemma convert_parse_roundtrip (ds : dataset) (extra : list Z) (rows : list Z -> option (list (list Z))) :
  rows = rows_txt \/ rows = rows_csv \/ rows = rows_json ->
  wf_dataset ds ->
  Forall (fun s => (1 <= slabel s)%Z) (ds_samples ds) ->
  (bind (rows (encode_dat ds ++ extra)) parse_loader <> None
     <-> sequential (map (fun s => (slabel s - 1)%Z) (ds_samples ds))) /\
  (sequential (map (fun s => (slabel s - 1)%Z) (ds_samples ds)) ->
   bind (rows (encode_dat ds ++ extra)) parse_loader
   = Some (map sfeat (ds_samples ds), map (fun s => (slabel s - 1)%Z) (ds_samples ds))).
Proof.
  intros Hrows Hwf Hlab.
  destruct (dat_layout_roundtrip_all ds extra Hwf) as [E1 [E2 E3]].
  assert (E : rows (encode_dat ds ++ extra) = Some (rows_of ds))
    by (destruct Hrows as [H | [H | H]]; rewrite H; assumption).
  rewrite E. cbn [bind].
  assert (Hnn : Forall (fun y => (0 <= y)%Z) (labels_of (rows_of ds))).
  { rewrite labels_of_rows. rewrite Forall_forall in *. intros y Hy.
    apply in_map_iff in Hy. destruct Hy as [s [<- Hs]]. specialize (Hlab s Hs). lia. }
  split.
  - rewrite (parse_accepts_iff_sequential _ Hnn), labels_of_rows. reflexivity.
  - intros Hseq. rewrite <- labels_of_rows in Hseq.
    rewrite (parse_result _ Hnn Hseq), labels_of_rows, features_of_rows. reflexivity.
Qed.

(* non-vacuity *)
Definition ex_ds : dataset :=
  mk_dataset 2 2 [mk_sample 0 1 [1069547520; 1075838976]%Z;     (* 1.5, 2.5 as float32 bits *)
                  mk_sample 1 2 [0; 2147483648]%Z;              (* 0.0, -0.0 *)
                  mk_sample 2 1 [2139095040; 1]%Z].             (* inf, smallest subnormal *)

Example ex_ds_wf : wf_dataset ex_ds.
Proof. repeat constructor. Qed.

Example ex_encode :
  encode_dat ex_ds = [3; 2; 2; 0; 1; 1069547520; 1075838976; 1; 2; 0; 2147483648; 2; 1; 2139095040; 1]%Z.
Proof. reflexivity. Qed.

Example ex_decode_parse :
  bind (rows_json (encode_dat ex_ds)) parse_loader
  = Some ([[1069547520; 1075838976]; [0; 2147483648]; [2139095040; 1]]%Z, [0; 1; 0]%Z).
Proof. reflexivity. Qed.

Example ex_truncated_file : rows_txt [3; 2; 2; 0; 1; 1069547520]%Z = None.
Proof. reflexivity. Qed.

Lemma c18_nonvacuous :
  (exists ds, Forall (fun s => length (sfeat s) = ds_nfeat ds) (ds_samples ds) /\
              length (ds_samples ds) = 3 /\
              bind (rows_json (encode_dat ds)) parse_loader <> None) /\
  Permutation.Permutation [2; 0; 3; 1] (seq 0 4).
Proof.
  split; [|exact ex_perm].
  exists ex_ds. split; [exact ex_ds_wf|]. split; [reflexivity|]. rewrite ex_decode_parse. discriminate.
Qed.
