(* Helper lemmas for the triangle inequalities of the closed-form metrics (C08).
   - simultaneous induction over two / three lists of equal length
   - additivity / monotonicity of [sum2] over three lists
   - [lmax] (fold_left Rmax) triangle lemma
   - subadditivity of t |-> ln (1 + t)
   - Cauchy-Schwarz / Minkowski (p = 2) for [sum2 (fun a b => (g a - g b)^2)] *)
From Coq Require Import Reals List Lra Lia.
From OPF Require Import Spec.MetricSpec.
Import ListNotations.
Open Scope R_scope.

(* ---------- simultaneous induction ---------- *)

Lemma list2_ind (P : list R -> list R -> Prop) :
  P [] [] ->
  (forall a b x y, length x = length y -> P x y -> P (a :: x) (b :: y)) ->
  forall x y, length x = length y -> P x y.
Proof.
  intros H0 HS x. induction x as [|a x IH]; intros [|b y] Hl; cbn [length] in Hl; try discriminate.
  - exact H0.
  - apply HS; [lia | apply IH; lia].
Qed.

Lemma list3_ind (P : list R -> list R -> list R -> Prop) :
  P [] [] [] ->
  (forall a b c x y z, length x = length y -> length y = length z ->
     P x y z -> P (a :: x) (b :: y) (c :: z)) ->
  forall x y z, length x = length y -> length y = length z -> P x y z.
Proof.
  intros H0 HS x. induction x as [|a x IH]; intros [|b y] [|c z] Hxy Hyz;
    cbn [length] in Hxy, Hyz; try discriminate.
  - exact H0.
  - apply HS; [lia | lia | apply IH; lia].
Qed.

(* ---------- sum / sum2 ---------- *)

Lemma sum_cons a l : sum (a :: l) = a + sum l.
Proof. reflexivity. Qed.

Lemma sum2_nil_nil f : sum2 f [] [] = 0.
Proof. reflexivity. Qed.

Lemma sum2_cons f a b x y : sum2 f (a :: x) (b :: y) = f a b + sum2 f x y.
Proof. reflexivity. Qed.

Lemma sum2_nonneg f :
  (forall a b, 0 <= f a b) -> forall x y, 0 <= sum2 f x y.
Proof.
  intros Hf x. induction x as [|a x IH]; intros [|b y]; try (cbv [sum2 map2 sum fold_right]; lra).
  rewrite sum2_cons. specialize (Hf a b). specialize (IH y). lra.
Qed.

Lemma sum2_triangle_dom (P : R -> Prop) (f : R -> R -> R) :
  (forall a b c, P a -> P b -> P c -> f a c <= f a b + f b c) ->
  forall x y z, length x = length y -> length y = length z ->
  Forall P x -> Forall P y -> Forall P z ->
  sum2 f x z <= sum2 f x y + sum2 f y z.
Proof.
  intros Hf.
  apply (list3_ind (fun x y z => Forall P x -> Forall P y -> Forall P z ->
                                 sum2 f x z <= sum2 f x y + sum2 f y z)).
  - intros _ _ _. rewrite sum2_nil_nil. lra.
  - intros a b c x y z _ _ IH Hx Hy Hz.
    inversion Hx as [|? ? Pa Hx']; subst. inversion Hy as [|? ? Pb Hy']; subst.
    inversion Hz as [|? ? Pc Hz']; subst.
    rewrite !sum2_cons. specialize (IH Hx' Hy' Hz'). specialize (Hf a b c Pa Pb Pc). lra.
Qed.

Lemma Forall_True (x : list R) : Forall (fun _ => True) x.
Proof. induction x; constructor; auto. Qed.

Lemma sum2_triangle (f : R -> R -> R) :
  (forall a b c, f a c <= f a b + f b c) ->
  forall x y z, length x = length y -> length y = length z ->
  sum2 f x z <= sum2 f x y + sum2 f y z.
Proof.
  intros Hf x y z Hxy Hyz.
  apply (sum2_triangle_dom (fun _ => True)); auto using Forall_True.
Qed.

Lemma len_pos x : (1 <= length x)%nat -> 0 < len x.
Proof. intros H. unfold len. apply lt_0_INR. lia. Qed.

Lemma len_eq x y : length x = length y -> len x = len y.
Proof. intros H. unfold len. now rewrite H. Qed.

Lemma sum_pos x : all_pos x -> (1 <= length x)%nat -> 0 < sum x.
Proof.
  unfold all_pos. intros H. induction H as [|a x Ha Hx IH]; intros Hl.
  - cbn in Hl. lia.
  - rewrite sum_cons. destruct x as [|a' x'].
    + cbv [sum fold_right]. lra.
    + assert (0 < sum (a' :: x')) by (apply IH; cbn [length]; lia). lra.
Qed.

(* ---------- lmax ---------- *)

Lemma fold_left_Rmax_triangle (f : R -> R -> R) :
  (forall a b c, f a c <= f a b + f b c) ->
  forall x y z, length x = length y -> length y = length z ->
  forall m1 m2 m3, m1 <= m2 + m3 ->
  fold_left Rmax (map2 f x z) m1 <= fold_left Rmax (map2 f x y) m2 + fold_left Rmax (map2 f y z) m3.
Proof.
  intros Hf.
  apply (list3_ind (fun x y z => forall m1 m2 m3, m1 <= m2 + m3 ->
    fold_left Rmax (map2 f x z) m1 <=
    fold_left Rmax (map2 f x y) m2 + fold_left Rmax (map2 f y z) m3)).
  - intros m1 m2 m3 H. exact H.
  - intros a b c x y z _ _ IH m1 m2 m3 H. cbn [map2 fold_left]. apply IH.
    specialize (Hf a b c).
    pose proof (Rmax_l m2 (f a b)). pose proof (Rmax_r m2 (f a b)).
    pose proof (Rmax_l m3 (f b c)). pose proof (Rmax_r m3 (f b c)).
    apply Rmax_lub; lra.
Qed.

Lemma lmax_triangle (f : R -> R -> R) :
  (forall a b c, f a c <= f a b + f b c) ->
  forall x y z, length x = length y -> length y = length z -> (1 <= length x)%nat ->
  lmax (map2 f x z) <= lmax (map2 f x y) + lmax (map2 f y z).
Proof.
  intros Hf [|a x] [|b y] [|c z] Hxy Hyz Hl; cbn [length] in Hxy, Hyz, Hl; try discriminate; try lia.
  cbn [map2 lmax]. apply fold_left_Rmax_triangle; auto; lia.
Qed.

(* ---------- ln (1 + t) is increasing and subadditive on [0, oo) ---------- *)

Lemma ln_le_mono u v : 0 < u -> u <= v -> ln u <= ln v.
Proof.
  intros Hu [Hlt | Heq].
  - left. apply ln_increasing; assumption.
  - subst. lra.
Qed.

Lemma ln1p_subadd r s t :
  0 <= r -> 0 <= s -> 0 <= t -> r <= s + t ->
  ln (1 + r) <= ln (1 + s) + ln (1 + t).
Proof.
  intros Hr Hs Ht H.
  rewrite <- ln_mult by lra.
  apply ln_le_mono; [lra|].
  assert (0 <= s * t) by (apply Rmult_le_pos; assumption). lra.
Qed.

(* ---------- Cauchy-Schwarz and Minkowski, p = 2 ---------- *)

Lemma discriminant A B C :
  0 <= B -> (forall t, 0 <= A + 2 * t * C + t * t * B) -> C * C <= A * B.
Proof.
  intros HB H. destruct HB as [HB | HB].
  - specialize (H (- C / B)).
    replace (A + 2 * (- C / B) * C + - C / B * (- C / B) * B) with ((A * B - C * C) / B) in H
      by (field; lra).
    assert (0 <= (A * B - C * C) / B * B) as H' by (apply Rmult_le_pos; lra).
    replace ((A * B - C * C) / B * B) with (A * B - C * C) in H' by (field; lra). lra.
  - subst B. destruct (Req_dec C 0) as [HC | HC].
    + subst C. lra.
    + specialize (H (- (A + 1) / (2 * C))).
      replace (A + 2 * (- (A + 1) / (2 * C)) * C + - (A + 1) / (2 * C) * (- (A + 1) / (2 * C)) * 0)
        with (- 1) in H by (field; assumption).
      lra.
Qed.

Lemma sqrt_minkowski_scalar A B C S :
  0 <= A -> 0 <= B -> C * C <= A * B -> S = A + 2 * C + B -> 0 <= S ->
  sqrt S <= sqrt A + sqrt B.
Proof.
  intros HA HB HC HS HS0.
  pose proof (sqrt_pos A) as Ha. pose proof (sqrt_pos B) as Hb.
  pose proof (sqrt_sqrt A HA) as Ha2. pose proof (sqrt_sqrt B HB) as Hb2.
  set (a := sqrt A) in *. set (b := sqrt B) in *.
  assert (C <= a * b) as HCab.
  { destruct (Rle_dec C (a * b)) as [Hle | Hgt]; [exact Hle | exfalso].
    apply Rnot_le_lt in Hgt.
    assert (0 <= a * b) as Hab by (apply Rmult_le_pos; assumption).
    assert (a * b * (a * b) < C * C) as Hsq by (apply Rmult_le_0_lt_compat; lra).
    replace (a * b * (a * b)) with ((a * a) * (b * b)) in Hsq by ring.
    rewrite Ha2, Hb2 in Hsq. lra. }
  rewrite <- (sqrt_square (a + b)) by lra.
  apply sqrt_le_1_alt.
  replace ((a + b) * (a + b)) with (a * a + 2 * (a * b) + b * b) by ring.
  rewrite Ha2, Hb2. lra.
Qed.

(* [sq g x y] = sum_i (g x_i - g y_i)^2 *)
Definition sqg (g : R -> R) (x y : list R) : R := sum2 (fun a b => (g a - g b) ^ 2) x y.

Lemma sqg_nonneg g x y : 0 <= sqg g x y.
Proof. apply sum2_nonneg. intros a b. apply pow2_ge_0. Qed.

Lemma sqg_expand g :
  forall x y z, length x = length y -> length y = length z ->
  exists C, sqg g x z = sqg g x y + 2 * C + sqg g y z /\
            forall t, 0 <= sqg g x y + 2 * t * C + t * t * sqg g y z.
Proof.
  apply (list3_ind (fun x y z => exists C, sqg g x z = sqg g x y + 2 * C + sqg g y z /\
            forall t, 0 <= sqg g x y + 2 * t * C + t * t * sqg g y z)).
  - exists 0. unfold sqg. rewrite sum2_nil_nil. split; [lra | intros t; lra].
  - intros a b c x y z _ _ [C [HS Ht]].
    exists (C + (g a - g b) * (g b - g c)). unfold sqg in *. rewrite !sum2_cons. split.
    + rewrite HS. ring.
    + intros t. specialize (Ht t).
      pose proof (pow2_ge_0 ((g a - g b) + t * (g b - g c))) as Hsq.
      set (A := sum2 (fun a0 b0 => (g a0 - g b0) ^ 2) x y) in *.
      set (B := sum2 (fun a0 b0 => (g a0 - g b0) ^ 2) y z) in *.
      replace ((g a - g b) ^ 2 + A + 2 * t * (C + (g a - g b) * (g b - g c)) +
               t * t * ((g b - g c) ^ 2 + B))
        with ((A + 2 * t * C + t * t * B) + (g a - g b + t * (g b - g c)) ^ 2) by ring.
      lra.
Qed.

Lemma minkowski2 g x y z :
  length x = length y -> length y = length z ->
  sqrt (sqg g x z) <= sqrt (sqg g x y) + sqrt (sqg g y z).
Proof.
  intros Hxy Hyz. destruct (sqg_expand g x y z Hxy Hyz) as [C [HS Ht]].
  apply (sqrt_minkowski_scalar _ _ C); auto using sqg_nonneg.
  apply discriminant; auto using sqg_nonneg.
Qed.
