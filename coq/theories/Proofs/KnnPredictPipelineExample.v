(* Non-vacuity of the end-to-end prediction theorems of KnnPredictPipelineMain.v: the three training
   samples of KnnPipelineExample.v (rational distances and "exp" terms), k = 1, FLOAT_MAX read as
   10^6, EPSILON as 1/1000 (so that 999 <= EPSILON * FLOAT_MAX), E x = max(0, 1 - x/2) (a rational
   stand-in for x |-> exp(-x/constant): decreasing, in [0, 1] on x >= 0, and exr_e = E o exr_d off
   the diagonal), one query at distances 1/4, 3/4, 7/4 from the three samples.

   As in KnnPipelineExample.v the training run cannot be evaluated over R; the example shows that
   all hypotheses are satisfiable together and instantiates both theorems.  With k = 1 the answer
   itself is determined by the theorems: the list of the k nearest is [0] ([k_nearest_unique]), so
   the query takes its label from training sample 0. *)
From Coq Require Import Reals List Arith Bool ZArith Lia Lra Permutation.
From OPF Require Import Base.Lists Base.NumOps Base.TotalOrder Model.Heap Model.Knn Model.Pdf Model.KnnFit
  Model.KnnPredict Spec.Paths Spec.Trees Proofs.PdfBase Proofs.KnnSort Proofs.Lift2Knn
  Proofs.KnnPipeline Proofs.KnnPipelineMain Proofs.KnnPipelineExample
  Proofs.KnnPredictPipeline Proofs.KnnPredictPipelineMain.
Import ListNotations.
Local Open Scope R_scope.

Definition exq_fmax : R := 1000000.
Definition exq_eps : R := 1 / 1000.
Definition exq_E (x : R) : R := Rmax 0 (1 - x / 2).
Definition exq_dq (j : nat) : R := nth j [1/4; 3/4; 7/4] 0.

Lemma exq_E_01 x : 0 <= x -> 0 <= exq_E x <= 1.
Proof.
  intros Hx. unfold exq_E, Rmax. destruct (Rle_dec 0 (1 - x / 2)); lra.
Qed.

Example exq_premises :
  (1 <= 1)%nat /\ (1 <= length exr_labels)%nat /\ (1 <= length exr_labels - 1)%nat /\
  1 <= exq_fmax /\
  (forall i j, (i < 3)%nat -> (j < 3)%nat -> i <> j -> 0 <= exr_d i j < exq_fmax) /\
  (forall i j, (i < 3)%nat -> (j < 3)%nat -> 0 <= exr_e i j <= 1) /\
  0 < exq_eps /\ 999 <= exq_eps * exq_fmax /\
  (forall x, 0 <= x -> 0 <= exq_E x <= 1) /\
  (forall j, (j < 3)%nat -> 0 <= exq_dq j < exq_fmax) /\
  (forall i j, (i < 3)%nat -> (j < 3)%nat -> i <> j -> exr_e i j = exq_E (exr_d i j)).
Proof.
  destruct exr_premises as (_ & _ & _ & _ & P3 & P4).
  unfold exq_fmax, exq_eps.
  split; [lia|]. split; [cbn; lia|]. split; [cbn; lia|]. split; [lra|]. split.
  { intros i j Hi Hj Hij. specialize (P3 i j Hi Hj Hij). lra. }
  split; [exact P4|]. split; [lra|]. split; [lra|]. split; [exact exq_E_01|]. split.
  - intros j Hj. destruct j as [|[|[|j]]]; [| | |lia]; unfold exq_dq; cbn [nth]; lra.
  - intros i j Hi Hj Hij.
    destruct i as [|[|[|i]]]; [| | |lia]; (destruct j as [|[|[|j]]]; [| | |lia]);
      try (exfalso; apply Hij; reflexivity);
      unfold exr_e, exr_d, exq_E, Rmax; cbn [nth]; destruct (Rle_dec _ _); lra.
Qed.

(* the nearest sample is sample 0 *)
Lemma exq_nearest : k_nearest exq_dq 3 1 [0%nat].
Proof.
  unfold k_nearest. split; [reflexivity|]. split; [repeat constructor; intros []|].
  split. { intros j [<-|[]]. lia. }
  split. { intros a b Hab Hb. lia. }
  intros j Hj Hnin a [<-|[]]. left.
  destruct j as [|[|[|j]]]; [exfalso; apply Hnin; now left| | |lia]; unfold exq_dq; cbn [nth]; lra.
Qed.

Example exq_sup :
  exists (g' : @knn R) (c mn mx : R),
    knn_sup_final ROps exq_fmax (1/100000) 1 1000 1 exr_labels 0 exr_d exr_e = (g', (c, mn, mx)) /\
    let answer := knn_query ROps exq_fmax exq_eps 1000 exq_E (g', (c, mn, mx)) 1 exq_dq in
    query_rule_R exq_fmax exq_eps 1 3 exq_E mn mx g' exq_dq answer /\
    answer = Some 0%nat /\ label_of g' answer = 0%nat /\
    knn_query_batch ROps exq_fmax exq_eps 1000 exq_E (g', (c, mn, mx)) 1 [exq_dq; exr_d 1; exq_dq]
    = [Some 0%nat; knn_query ROps exq_fmax exq_eps 1000 exq_E (g', (c, mn, mx)) 1 (exr_d 1); Some 0%nat].
Proof.
  destruct exq_premises as (Q1 & Q2 & Q3 & Q4 & Q5 & Q6 & Q7 & Q8 & Q9 & Q10 & _).
  destruct (knn_sup_final ROps exq_fmax (1/100000) 1 1000 1 exr_labels 0 exr_d exr_e)
    as [g' [[c mn] mx]] eqn:H.
  exists g', c, mn, mx. split; [reflexivity|]. cbv zeta.
  destruct (knn_sup_query_rule exq_fmax (1/100000) 1 0 exq_eps 1 exr_labels exr_d exr_e exq_E
              Q1 ltac:(cbn; lia) Q4 Q5 Q6 Q7 Q8 Q9 g' c mn mx H exq_dq Q10) as (R1 & s & Es & Hs & Ls).
  change (length exr_labels) with 3%nat in R1, Hs.
  assert (Ea : knn_query ROps exq_fmax exq_eps 1000 exq_E (g', (c, mn, mx)) 1 exq_dq = Some 0%nat).
  { pose proof R1 as R1'. unfold query_rule_R in R1'. cbv zeta in R1'.
    destruct R1' as (KN & _ & _ & r & Hr & Ea & _).
    rewrite (k_nearest_unique _ _ _ _ _ KN exq_nearest) in Ea.
    assert (r = 0%nat) by lia. subst r. exact Ea. }
  split; [exact R1|]. split; [exact Ea|]. split.
  - rewrite Es in Ea. injection Ea as ->. rewrite Ls. reflexivity.
  - rewrite knn_query_batch_pointwise.
    + cbn [map]. rewrite Ea. reflexivity.
    + cbn [fst].
      assert (T1 : k_label g' = exr_labels).
      { exact (proj1 (knn_sup_final_forest exq_fmax (1/100000) 1 0 1 exr_labels exr_d exr_e
                        ltac:(lra) Q5 g' c mn mx H)). }
      rewrite T1. change (length exr_labels) with 3%nat.
      intros dq [<-|[<-|[<-|[]]]] j Hj; try exact (proj2 (Q10 j Hj)).
      destruct (Nat.eq_dec 1 j) as [<-|Hne]; [unfold exr_d, exq_fmax; cbn [nth]; lra|].
      exact (proj2 (Q5 1%nat j ltac:(lia) Hj Hne)).
Qed.

Example exq_unsup :
  exists (g' : @knn R) (c mn mx : R),
    unsup_final ROps exq_fmax (1/100000) 1 1000 1 exr_labels 0 exr_d exr_e = (g', (c, mn, mx)) /\
    let answer := knn_query ROps exq_fmax exq_eps 1000 exq_E (g', (c, mn, mx)) 1 exq_dq in
    let g'' := propagate_labels g' in
    let r := nth 0%nat (k_root g') 0%nat in
    query_rule_R exq_fmax exq_eps 1 3 exq_E mn mx g' exq_dq answer /\
    answer = Some 0%nat /\
    knn_query ROps exq_fmax exq_eps 1000 exq_E (with_propagated_labels (g', (c, mn, mx))) 1 exq_dq = answer /\
    (r < 3)%nat /\ nth r (k_pred g') None = None /\
    label_of g'' answer = nth r exr_labels 0%nat /\
    cluster_of g'' answer = nth r (k_clabel g') 0%nat /\
    (cluster_of g'' answer < k_nclusters g')%nat.
Proof.
  destruct exq_premises as (Q1 & Q2 & Q3 & Q4 & Q5 & Q6 & Q7 & Q8 & Q9 & Q10 & _).
  destruct (unsup_final ROps exq_fmax (1/100000) 1 1000 1 exr_labels 0 exr_d exr_e)
    as [g' [[c mn] mx]] eqn:H.
  exists g', c, mn, mx. split; [reflexivity|]. cbv zeta.
  destruct (unsup_query_rule exq_fmax (1/100000) 1 0 exq_eps 1 exr_labels exr_d exr_e exq_E
              Q1 ltac:(cbn; lia) Q4 Q5 Q6 Q7 Q8 Q9 g' c mn mx Q3 H exq_dq Q10)
    as (R1 & R2 & s & Es & Hs & U1 & U2 & U3 & U4 & U5 & U6).
  change (length exr_labels) with 3%nat in R1, Hs, U1.
  assert (Ea : knn_query ROps exq_fmax exq_eps 1000 exq_E (g', (c, mn, mx)) 1 exq_dq = Some 0%nat).
  { pose proof R1 as R1'. unfold query_rule_R in R1'. cbv zeta in R1'.
    destruct R1' as (KN & _ & _ & r & Hr & Ea & _).
    rewrite (k_nearest_unique _ _ _ _ _ KN exq_nearest) in Ea.
    assert (r = 0%nat) by lia. subst r. exact Ea. }
  assert (s = 0%nat) by (rewrite Es in Ea; now injection Ea). subst s.
  split; [exact R1|]. split; [exact Ea|]. split; [exact R2|]. split; [exact U1|].
  split; [exact U2|]. split; [exact U3|]. split; [rewrite U4; exact U5|]. rewrite U4. exact U6.
Qed.
