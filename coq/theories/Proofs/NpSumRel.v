(* A relational induction principle for numpy's pairwise summation as modelled by Model/KnnLearn.v ([np_sum]).

   Two interpretations O1, O2 of the numeric record are run side by side on two lists; [Rel m x1 x2] is any relation
   indexed by a weight m (think: "x1, x2 are the two values of a partial sum over m leaves").  If zero is related at
   weight [wz], the terms pairwise at weight 1, and an addition of related values is related at the sum of the
   weights, then the two pairwise sums are related at weight [wz + n] when n < 8 (numpy's plain loop starts from
   0.) and at weight n when n >= 8 (eight accumulators seeded with the first eight entries, no zero involved; the
   recursive halving above 128 entries only ever produces pieces of at least 57 entries).

   Used by Proofs/AccuracyRounding.v twice: with the exact reals against the rounded reals (error analysis, any
   summation order numpy uses), and with a trivial left side (range analysis). *)
From Coq Require Import List Arith Lia.
From OPF Require Import Base.NumOps Model.KnnFit Model.KnnLearn.
Import ListNotations.

Lemma Forall2_nth_rel {A B} (P : A -> B -> Prop) l1 l2 d1 d2 j :
  Forall2 P l1 l2 -> j < length l1 -> P (nth j l1 d1) (nth j l2 d2).
Proof.
  intros H. revert j. induction H as [|a b l1 l2 Hab Hl IH]; intros j Hj; cbn [length] in Hj; [lia|].
  destruct j as [|j]; cbn [nth]; [exact Hab | apply IH; lia].
Qed.

Lemma Forall2_length_eq {A B} (P : A -> B -> Prop) l1 l2 : Forall2 P l1 l2 -> length l2 = length l1.
Proof. induction 1; cbn [length]; congruence. Qed.

Lemma Forall2_firstn {A B} (P : A -> B -> Prop) n l1 l2 :
  Forall2 P l1 l2 -> Forall2 P (firstn n l1) (firstn n l2).
Proof.
  intros H. revert n. induction H as [|a b l1 l2 Hab Hl IH]; intros [|n]; cbn [firstn]; constructor; auto.
Qed.

Lemma Forall2_skipn {A B} (P : A -> B -> Prop) n l1 l2 :
  Forall2 P l1 l2 -> Forall2 P (skipn n l1) (skipn n l2).
Proof.
  intros H. revert n. induction H as [|a b l1 l2 Hab Hl IH]; intros [|n]; cbn [skipn]; auto.
Qed.

Lemma Forall2_map_same {A B C} (P : B -> C -> Prop) (f : A -> B) (g : A -> C) L :
  (forall c, In c L -> P (f c) (g c)) -> Forall2 P (map f L) (map g L).
Proof.
  induction L as [|c L IH]; intros H; cbn [map]; constructor.
  - apply H. now left.
  - apply IH. intros c' Hc'. apply H. now right.
Qed.

Section Rel.
  Context {F1 F2 : Type} (O1 : NumOps F1) (O2 : NumOps F2).
  Variable Rel : nat -> F1 -> F2 -> Prop.
  Variable wz : nat.
  Hypothesis Hz : Rel wz (fzero O1) (fzero O2).
  Hypothesis Hadd : forall a b x1 x2 y1 y2,
    Rel a x1 x2 -> Rel b y1 y2 -> Rel (a + b) (nadd O1 x1 y1) (nadd O2 x2 y2).

  Lemma sum_from_rel : forall l1 l2, Forall2 (Rel 1) l1 l2 -> forall a x1 x2, Rel a x1 x2 ->
    Rel (a + length l1) (sum_from O1 x1 l1) (sum_from O2 x2 l2).
  Proof.
    unfold sum_from. induction 1 as [|e1 e2 l1 l2 He Hl IH]; intros a x1 x2 Hx; cbn [fold_left length].
    - now rewrite Nat.add_0_r.
    - replace (a + S (length l1)) with ((a + 1) + length l1) by lia. apply IH. now apply Hadd.
  Qed.

  Definition P8 (a : nat) (r1 : list F1) (r2 : list F2) : Prop :=
    forall j, j < 8 -> Rel a (nth j r1 (fzero O1)) (nth j r2 (fzero O2)).

  Lemma Forall2_P8 a r1 r2 : Forall2 (Rel a) r1 r2 -> length r1 = 8 -> P8 a r1 r2.
  Proof. intros H L j Hj. apply Forall2_nth_rel; [exact H | lia]. Qed.

  Lemma nth_add8 {F} (O : NumOps F) r b j d : j < 8 ->
    nth j (add8 O r b) d = nadd O (nth j r (fzero O)) (nth j b (fzero O)).
  Proof.
    intros Hj. unfold add8. cbn [seq map].
    do 8 (destruct j as [|j]; [reflexivity|]). lia.
  Qed.

  Lemma add8_P8 a r1 r2 b1 b2 : P8 a r1 r2 -> P8 1 b1 b2 -> P8 (a + 1) (add8 O1 r1 b1) (add8 O2 r2 b2).
  Proof. intros Hr Hb j Hj. rewrite !nth_add8 by exact Hj. apply Hadd; [now apply Hr | now apply Hb]. Qed.

  Lemma blocks8_rel : forall fuel a r1 r2 l1 l2, P8 a r1 r2 -> Forall2 (Rel 1) l1 l2 ->
    exists t, P8 (a + t) (fst (blocks8 O1 fuel r1 l1)) (fst (blocks8 O2 fuel r2 l2)) /\
              Forall2 (Rel 1) (snd (blocks8 O1 fuel r1 l1)) (snd (blocks8 O2 fuel r2 l2)) /\
              8 * t + length (snd (blocks8 O1 fuel r1 l1)) = length l1.
  Proof.
    induction fuel as [|f IH]; intros a r1 r2 l1 l2 Hr Hl; cbn [blocks8].
    - exists 0. cbn [fst snd]. rewrite Nat.add_0_r. auto.
    - rewrite (Forall2_length_eq _ _ _ Hl).
      destruct (Nat.leb_spec 8 (length l1)) as [L|L].
      + assert (H8 : P8 1 (firstn 8 l1) (firstn 8 l2)).
        { apply Forall2_P8; [now apply Forall2_firstn | rewrite firstn_length; lia]. }
        destruct (IH (a + 1) _ _ _ _ (add8_P8 a r1 r2 _ _ Hr H8) (Forall2_skipn _ 8 _ _ Hl)) as [t [A [B C]]].
        exists (S t). replace (a + S t) with (a + 1 + t) by lia. split; [exact A|]. split; [exact B|].
        rewrite skipn_length in C. lia.
      + exists 0. cbn [fst snd]. rewrite Nat.add_0_r. auto.
  Qed.

  Lemma sum_block_rel l1 l2 : Forall2 (Rel 1) l1 l2 -> 8 <= length l1 ->
    Rel (length l1) (sum_block O1 l1) (sum_block O2 l2).
  Proof.
    intros Hl L. unfold sum_block. rewrite (Forall2_length_eq _ _ _ Hl).
    assert (H8 : P8 1 (firstn 8 l1) (firstn 8 l2)).
    { apply Forall2_P8; [now apply Forall2_firstn | rewrite firstn_length; lia]. }
    destruct (blocks8_rel (length l1) 1 _ _ _ _ H8 (Forall2_skipn _ 8 _ _ Hl)) as [t [A [B C]]].
    destruct (blocks8 O1 (length l1) (firstn 8 l1) (skipn 8 l1)) as [r1 rest1].
    destruct (blocks8 O2 (length l1) (firstn 8 l2) (skipn 8 l2)) as [r2 rest2].
    cbn [fst snd] in A, B, C. rewrite skipn_length in C.
    set (w := 1 + t) in *.
    replace (length l1) with (((w + w) + (w + w)) + ((w + w) + (w + w)) + length rest1) by lia.
    apply sum_from_rel; [exact B|].
    repeat apply Hadd; apply A; lia.
  Qed.

  Lemma split_sizes n : 128 < n ->
    let n2 := n / 2 - (n / 2) mod 8 in 8 <= n2 /\ n2 <= n /\ 8 <= n - n2.
  Proof.
    intros Hn. cbv zeta.
    pose proof (Nat.div_mod_eq n 2) as E. pose proof (Nat.mod_upper_bound n 2 ltac:(lia)) as M2.
    pose proof (Nat.mod_upper_bound (n / 2) 8 ltac:(lia)) as M8.
    pose proof (Nat.mod_le (n / 2) 8 ltac:(lia)) as ML. lia.
  Qed.

  Lemma pairwise_rel : forall fuel l1 l2, Forall2 (Rel 1) l1 l2 ->
    (length l1 < 8 -> Rel (wz + length l1) (pairwise_sum O1 fuel l1) (pairwise_sum O2 fuel l2)) /\
    (8 <= length l1 -> Rel (length l1) (pairwise_sum O1 fuel l1) (pairwise_sum O2 fuel l2)).
  Proof.
    induction fuel as [|f IH]; intros l1 l2 Hl; cbn [pairwise_sum]; cbv zeta;
      rewrite (Forall2_length_eq _ _ _ Hl);
      destruct (Nat.ltb_spec (length l1) 8) as [L8|L8].
    - split; [intros _|lia]. now apply sum_from_rel.
    - split; [lia|intros _]. destruct (Nat.leb (length l1) 128); now apply sum_block_rel.
    - split; [intros _|lia]. now apply sum_from_rel.
    - split; [lia|intros _]. destruct (Nat.leb_spec (length l1) 128) as [L|L]; [now apply sum_block_rel|].
      destruct (split_sizes (length l1) L) as [S1 [S2 S3]].
      set (n2 := length l1 / 2 - (length l1 / 2) mod 8) in *.
      destruct (IH _ _ (Forall2_firstn _ n2 _ _ Hl)) as [_ A].
      destruct (IH _ _ (Forall2_skipn _ n2 _ _ Hl)) as [_ B].
      rewrite firstn_length, Nat.min_l in A by exact S2. rewrite skipn_length in B.
      replace (length l1) with (n2 + (length l1 - n2)) at 1 by lia.
      apply Hadd; [apply A | apply B]; lia.
  Qed.

  Theorem np_sum_rel l1 l2 : Forall2 (Rel 1) l1 l2 ->
    (length l1 < 8 -> Rel (wz + length l1) (np_sum O1 l1) (np_sum O2 l2)) /\
    (8 <= length l1 -> Rel (length l1) (np_sum O1 l1) (np_sum O2 l2)).
  Proof.
    intros Hl. unfold np_sum. rewrite (Forall2_length_eq _ _ _ Hl). now apply pairwise_rel.
  Qed.
End Rel.
