#!/usr/bin/env python3
"""Regenerate coq/theories/Props/C08_basic.v from the lemma statements in coq/theories/Proofs/Metric{Sym,NotSym,Nonneg,Analytic}.v
and cross-check against harness/axiom_table.py.  Run from the repository root."""
import re, sys
sys.path.insert(0, 'harness')
import axiom_table as T
files = ['MetricSym', 'MetricNotSym', 'MetricNonneg', 'MetricAnalytic']
pat = re.compile(r'^Lemma ((?:sym|not_sym|nonneg|zero_self)_\w+|gaussian_\w+|bhattacharyya_needs_unit_sum) : (.*?)\.\nProof', re.M | re.S)
lem = {}
order = []
for f in files:
    s = open(f'coq/theories/Proofs/{f}.v').read()
    for m in pat.finditer(s):
        lem[m.group(1)] = ' '.join(m.group(2).split())
        order.append(m.group(1))
missing = []
for n in T.ALL:
    c = T.claims(n)
    for ax in ('sym', 'nonneg', 'zero_self'):
        if ax in c and f'{ax}_{n}' not in lem:
            missing.append(f'{ax}_{n}')
    if 'sym' not in c and f'not_sym_{n}' not in lem:
        missing.append(f'not_sym_{n}')
print('delivered', len(lem), 'missing', missing, file=sys.stderr)
out = ['(* C08 (basic axioms): symmetry, non-negativity, zero self-distance of the closed forms.',
       '   Generated text (statements copied verbatim from Proofs/Metric{Sym,NotSym,Nonneg,Analytic}.v). *)',
       'From Coq Require Import Reals List.',
       'From OPF Require Import Spec.MetricSpec Proofs.MetricAxioms.',
       '']
def key(n):
    for i, p in enumerate(('sym_', 'not_sym_', 'nonneg_', 'zero_self_')):
        if n.startswith(p): return (i, n)
    return (9, n)
for n in sorted(order, key=key):
    out.append(f'Theorem C08_{n} : ({lem[n]})%R.')
    out.append(f'Proof. exact {n}. Qed.')
    out.append('')
open('coq/theories/Props/C08_basic.v', 'w').write('\n'.join(out))
