#!/usr/bin/env python3
"""Assembles coq/theories/Props/C08.v: the per-metric axiom theorems of Props/C08_basic.v and Props/C08_triangle.v
grouped into a few conjunctions (Print Assumptions on 150 separate theorems costs ~1 minute per check), with every
conjunct's statement written out in full, and cross-checked against harness/axiom_table.py."""
import os, re, sys
here = os.path.dirname(os.path.dirname(os.path.abspath(__file__)))
sys.path.insert(0, os.path.join(here, "harness"))
import axiom_table as T

def entries(fn):
    src = open(os.path.join(here, "coq/theories/Props", fn)).read()
    return re.findall(r"Theorem\s+(\w+)\s*:\s*(.*?)\.\s*Proof\.\s*exact\s+(.*?)\.\s*Qed\.", src, flags=re.S)

basic = entries("C08_basic.v")
tri = entries("C08_triangle.v")
groups = {"symmetric": [], "not_symmetric": [], "nonneg": [], "zero_self": [], "gaussian": [], "triangle": []}
for name, stmt, lem in basic:
    stmt = " ".join(stmt.split())
    if name.startswith("C08_sym_"): groups["symmetric"].append((name, stmt, lem))
    elif name.startswith("C08_not_sym_"): groups["not_symmetric"].append((name, stmt, lem))
    elif name.startswith("C08_nonneg_"): groups["nonneg"].append((name, stmt, lem))
    elif name.startswith("C08_zero_self_"): groups["zero_self"].append((name, stmt, lem))
    elif "gaussian" in name: groups["gaussian"].append((name, stmt, lem))
    else: groups.setdefault("other", []).append((name, stmt, lem))
for name, stmt, lem in tri:
    groups["triangle"].append((name, "(" + " ".join(stmt.split()) + ")", lem))
# cross-check with the axiom table
missing = []
have = {g: {n.split("_", 2)[2] if g != "zero_self" and g != "not_symmetric" else n.split("_", 3)[3] for n, _, _ in v} for g, v in groups.items()}
for m in T.ALL:
    c = T.claims(m)
    if "sym" in c and m not in have["symmetric"]: missing.append(("sym", m))
    if "nonneg" in c and m not in have["nonneg"]: missing.append(("nonneg", m))
    if "zero_self" in c and m not in have["zero_self"]: missing.append(("zero_self", m))
    if "triangle" in c and m not in have["triangle"]: missing.append(("triangle", m))
if missing:
    print("MISSING axioms claimed by the table but not proved:", missing); sys.exit(1)
out = ["(* C08 - metric axioms of the 47 closed forms (Spec/MetricSpec.v), assembled by bin/gen_c08.py from",
       "   Props/C08_basic.v and Props/C08_triangle.v; the axiom table is harness/axiom_table.py. The link from the closed",
       "   forms to opfython/math/distance.py is C06 (Props/C06.v: metric_value of the regenerated IR = sp_<name>). *)",
       "From Coq Require Import Reals List.",
       "From OPF Require Import Spec.MetricSpec Props.C08_basic Props.C08_triangle.", ""]
for g, items in groups.items():
    if not items: continue
    out.append("Theorem C08_%s :" % g)
    out.append("  " + "\n  /\\ ".join("(%s)" % s for _, s, _ in items) + ".")
    pr = items[-1][0]
    for n, _, _ in reversed(items[:-1]):
        pr = "(conj %s %s)" % (n, pr)
    out.append("Proof. exact %s. Qed.\n" % pr)
text = "\n".join(out)
path = os.path.join(here, "coq/theories/Props/C08.v")
if "--check" in sys.argv:
    if not os.path.exists(path) or open(path).read() != text:
        print("Props/C08.v is not the assembly of C08_basic.v + C08_triangle.v"); sys.exit(1)
else:
    open(path, "w").write(text)
print("Props/C08.v:", {g: len(v) for g, v in groups.items()})
