#!/usr/bin/env python3
"""Writes coq/theories/Proofs/CodeAxioms.v and coq/theories/Props/C08_code.v: the metric axioms of
harness/axiom_table.py stated about the CODE terms (metric_value ir_<name>, regenerated from
opfython/math/distance.py) on the USER's domain, each proved by composing closed_form_<name>
(Proofs/ClosedForms.v) with the axiom of the closed form (Proofs/MetricAxioms.v, Proofs/Triangle*.v).

User domains (axiom_table.DOMAIN):  real -> no hypothesis;  nonneg / pos -> all_nonneg (the decorator's EPSILON
shift turns a non-negative vector into a positive one);  prob -> all_nonneg and sum x = sum y.
bhattacharyya (unit sums, destroyed by the shift) is written by hand in Proofs/CodeAxiomsBhattacharyya.v.

  bin/gen_code_axioms.py          write both files
  bin/gen_code_axioms.py --check  fail if the files are not what the generator would write
"""
import os, re, sys
here = os.path.dirname(os.path.dirname(os.path.abspath(__file__)))
sys.path.insert(0, os.path.join(here, "harness"))
import axiom_table as T

cf_src = open(os.path.join(here, "coq/theories/Proofs/ClosedForms.v")).read()
DECORATED = set(re.findall(r"metric_value ir_(\w+) x y = sp_\w+ \(shift x\) \(shift y\)", cf_src))
HAND = {"bhattacharyya"}          # nonneg / zero_self stated and proved in CodeAxiomsBhattacharyya.v


def dom_hyps(name, vs, kind):
    d = T.domain(name)
    hyps = []
    if d != "real":
        hyps += ["all_nonneg %s" % v for v in vs]
    if d == "prob" and kind == "nonneg":
        hyps.append("sum x = sum y")
    return hyps


def arrow(hyps, concl):
    return " -> ".join(hyps + [concl])


def mv(name, a, b):
    return "metric_value ir_%s %s %s" % (name, a, b)


def statements(name):
    """[(kind, lemma name, statement, sp-level axiom)] for one metric"""
    c = T.claims(name)
    out = []
    if "sym" in c:
        out.append(("symmetric", "code_sym_" + name,
                    "forall x y : list R, " + arrow(["length x = length y"], "%s = %s" % (mv(name, "x", "y"), mv(name, "y", "x"))),
                    "sym_" + name))
    if "nonneg" in c and name not in HAND:
        out.append(("nonneg", "code_nonneg_" + name,
                    "forall x y : list R, " + arrow(["length x = length y", "(1 <= length x)%nat"] + dom_hyps(name, "xy", "nonneg"),
                                                    "0 <= " + mv(name, "x", "y")),
                    "nonneg_" + name))
    if "zero_self" in c and name not in HAND:
        out.append(("zero_self", "code_zero_self_" + name,
                    "forall x : list R, " + arrow(["(1 <= length x)%nat"] + dom_hyps(name, "x", "zero_self"),
                                                  mv(name, "x", "x") + " = 0"),
                    "zero_self_" + name))
    if "triangle" in c:
        out.append(("triangle", "code_triangle_" + name,
                    "forall x y z : list R, " + arrow(["length x = length y", "length y = length z", "(1 <= length x)%nat"]
                                                      + dom_hyps(name, "xyz", "triangle"),
                                                      "%s <= %s + %s" % (mv(name, "x", "z"), mv(name, "x", "y"), mv(name, "y", "z"))),
                    "triangle_" + name))
    return out


HAND_STATEMENTS = {   # copied verbatim from Proofs/CodeAxiomsBhattacharyya.v (checked below)
    "code_nonneg_bhattacharyya":
        ("nonneg", "forall x y : list R, length x = length y -> (1 <= length x)%nat -> all_nonneg x -> all_nonneg y -> "
                   "sum (shift x) = 1 -> sum (shift y) = 1 -> 0 <= metric_value ir_bhattacharyya x y"),
    "code_zero_self_bhattacharyya":
        ("zero_self", "forall x : list R, (1 <= length x)%nat -> all_nonneg x -> sum (shift x) = 1 -> "
                      "metric_value ir_bhattacharyya x x = 0"),
}


def main():
    groups = {"symmetric": [], "nonneg": [], "zero_self": [], "triangle": []}
    body = []
    for name in T.ALL:
        for kind, lem, stmt, ax in statements(name):
            groups[kind].append((lem, stmt))
            body.append("Lemma %s : %s.\nProof. ca_transfer closed_form_%s %s. Qed.\n" % (lem, stmt, name, ax))
        if name in HAND:
            for lem, (kind, stmt) in HAND_STATEMENTS.items():
                if lem.endswith("_" + name):
                    groups[kind].append((lem, stmt))
    hand_path = os.path.join(here, "coq/theories/Proofs/CodeAxiomsBhattacharyya.v")
    hand_src = " ".join(open(hand_path).read().split()) if os.path.exists(hand_path) else ""
    for lem, (_, stmt) in HAND_STATEMENTS.items():
        if ("Lemma %s : %s." % (lem, stmt)) not in hand_src:
            print("hand-written statement of %s differs from Proofs/CodeAxiomsBhattacharyya.v" % lem); sys.exit(1)
    n_dec = sum(1 for n in T.ALL if n in DECORATED)
    proofs = "\n".join([
        "(* C08 at the code level: the axioms claimed by harness/axiom_table.py, stated about the terms ir_<name> of",
        "   Gen/Metrics_gen.v (regenerated from opfython/math/distance.py on every run; decorator included in",
        "   [metric_value]) on the USER's domain.  Generated by bin/gen_code_axioms.py; do not edit.",
        "   %d metrics, %d of them decorated with avoid_zero_division (arguments shifted by EPSILON = 1e-20):" % (len(T.ALL), n_dec),
        "   a non-negative user vector becomes positive, equal sums stay equal (Proofs/CodeAxiomsBase.v).",
        "   An edit of distance.py that changes a formula breaks closed_form_<name>, hence every lemma below. *)",
        "From Coq Require Import Reals List.",
        "From OPF Require Import Spec.MetricSpec Gen.Metrics_gen Model.MetricEval Proofs.IRLemmas Proofs.ClosedForms",
        "     Proofs.MetricAxioms Proofs.TriangleL1 Proofs.TriangleL2 Proofs.TriangleCanberra Proofs.TriangleSoergel",
        "     Proofs.CodeAxiomsBase.",
        "Open Scope R_scope.",
        ""] + body)
    out = ["(* C08 (code level) - the metric axioms of harness/axiom_table.py about the code terms ir_<name> regenerated",
           "   from opfython/math/distance.py, on the user's domain.  Assembled by bin/gen_code_axioms.py from",
           "   Proofs/CodeAxioms.v, Proofs/CodeAxiomsBhattacharyya.v, Proofs/CodeAxiomsGaussian.v. *)",
           "From Coq Require Import Reals List.",
           "From OPF Require Import Spec.MetricSpec Gen.Metrics_gen Model.MetricEval",
           "     Proofs.CodeAxioms Proofs.CodeAxiomsBhattacharyya Proofs.CodeAxiomsGaussian.", ""]
    for g, items in groups.items():
        out.append("Theorem C08_code_%s :" % g)
        out.append("  " + "\n  /\\ ".join("(%s)%%R" % s for _, s in items) + ".")
        pr = items[-1][0]
        for n, _ in reversed(items[:-1]):
            pr = "(conj %s %s)" % (n, pr)
        out.append("Proof. exact %s. Qed.\n" % pr)
    out.append(EXTRA)
    props = "\n".join(out)
    files = {"coq/theories/Proofs/CodeAxioms.v": proofs, "coq/theories/Props/C08_code.v": props}
    bad = False
    for rel, text in files.items():
        path = os.path.join(here, rel)
        if "--check" in sys.argv:
            if not os.path.exists(path) or open(path).read() != text:
                print("%s is not what bin/gen_code_axioms.py generates" % rel); bad = True
        else:
            open(path, "w").write(text)
    if bad:
        sys.exit(1)
    # cross-check with the axiom table
    want = {"symmetric": "sym", "nonneg": "nonneg", "zero_self": "zero_self", "triangle": "triangle"}
    for g, c in want.items():
        names = {l.split(c + "_", 1)[1] for l, _ in groups[g]}
        claimed = {m for m in T.ALL if c in T.claims(m)}
        if names != claimed:
            print("MISMATCH with the axiom table for", g, names ^ claimed); sys.exit(1)
    print("code-level axioms:", {g: len(v) for g, v in groups.items()})


EXTRA = """(* gaussian is a similarity: 1 at identity, in (0, 1] elsewhere (gamma at its default 1, and any gamma >= 0) *)
Theorem C08_code_gaussian :
  (forall x : list R, metric_value ir_gaussian x x = 1)%R
  /\\ (forall x y : list R, length x = length y -> 0 < metric_value ir_gaussian x y <= 1)%R
  /\\ (forall (g : R) (x y : list R), length x = length y ->
       metric_value_with (fun _ => g) ir_gaussian x y = metric_value_with (fun _ => g) ir_gaussian y x)%R
  /\\ (forall (g : R) (x : list R), metric_value_with (fun _ => g) ir_gaussian x x = 1)%R
  /\\ (forall (g : R) (x y : list R), length x = length y -> (0 <= g)%R ->
       0 < metric_value_with (fun _ => g) ir_gaussian x y <= 1)%R.
Proof. exact (conj code_gaussian_self (conj code_gaussian_range (conj code_sym_gaussian_gamma (conj code_gaussian_self_gamma code_gaussian_range_gamma)))). Qed.

(* bhattacharyya on probability vectors (sum exactly 1): the decorator's shift makes the sums 1 + n * EPSILON, so the
   self-distance is -ln(1 + n * EPSILON) (not 0) and every distance is >= that; the defect is below n * 1e-20 *)
Theorem C08_code_bhattacharyya_prob :
  (forall x : list R, (1 <= length x)%nat -> all_nonneg x -> sum x = 1 ->
     metric_value ir_bhattacharyya x x = - ln (1 + INR (length x) * EPSILON))%R
  /\\ (forall x : list R, (1 <= length x)%nat -> all_nonneg x -> sum x = 1 ->
     - (INR (length x) * EPSILON) <= metric_value ir_bhattacharyya x x < 0)%R
  /\\ (forall x y : list R, length x = length y -> (1 <= length x)%nat -> all_nonneg x -> all_nonneg y ->
     sum x = 1 -> sum y = 1 ->
     - ln (1 + INR (length x) * EPSILON) <= metric_value ir_bhattacharyya x y)%R
  /\\ (forall x y : list R, length x = length y -> (1 <= length x)%nat -> all_nonneg x -> all_nonneg y ->
     sum x = 1 -> sum y = 1 ->
     - (INR (length x) * EPSILON) <= metric_value ir_bhattacharyya x y)%R.
Proof. exact (conj code_self_bhattacharyya_prob (conj code_self_bhattacharyya_prob_bounds (conj code_nonneg_bhattacharyya_prob code_nonneg_bhattacharyya_prob_eps))). Qed.
"""

if __name__ == "__main__":
    main()
